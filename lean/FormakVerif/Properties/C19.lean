/-
C19 — the strapdown IMU reference model obeys rigid-body kinematics.
`Generated/Strapdown.lean` holds the 16 update expressions of the *current* source as real functions
(rewritten by the translator on every run); the statements below are hand-written and are re-checked
by the kernel against whatever the translator produced.
-/
import FormakVerif.Generated.Strapdown
import Mathlib.Tactic.FieldSimp
import Mathlib.Tactic.Ring
import Mathlib.Tactic.NormNum

namespace FormakVerif.C19
open FormakVerif.Strapdown FormakVerif.Generated.Strapdown

/-- specification of the global acceleration: the bias-corrected specific force rotated by the composed
orientation `q = ori ⊗ cori` (with the explicit `|q|²`), plus gravity `(0, 0, −g)` -/

noncomputable def specAcc1 (oriw orix oriy oriz coriw corix coriy coriz w1 w2 w3 f1 f2 f3 fb1 fb2 fb3 g dt x1 x2 x3 v1 v2 v3 a1 a2 a3 yawr pitchr rollr : ℝ) : ℝ :=
  rot1 (qw oriw orix oriy oriz coriw corix coriy coriz) (qx oriw orix oriy oriz coriw corix coriy coriz) (qy oriw orix oriy oriz coriw corix coriy coriz) (qz oriw orix oriy oriz coriw corix coriy coriz) (f1 - fb1) (f2 - fb2) (f3 - fb3) / n2 oriw orix oriy oriz coriw corix coriy coriz + (0)

noncomputable def specAcc2 (oriw orix oriy oriz coriw corix coriy coriz w1 w2 w3 f1 f2 f3 fb1 fb2 fb3 g dt x1 x2 x3 v1 v2 v3 a1 a2 a3 yawr pitchr rollr : ℝ) : ℝ :=
  rot2 (qw oriw orix oriy oriz coriw corix coriy coriz) (qx oriw orix oriy oriz coriw corix coriy coriz) (qy oriw orix oriy oriz coriw corix coriy coriz) (qz oriw orix oriy oriz coriw corix coriy coriz) (f1 - fb1) (f2 - fb2) (f3 - fb3) / n2 oriw orix oriy oriz coriw corix coriy coriz + (0)

noncomputable def specAcc3 (oriw orix oriy oriz coriw corix coriy coriz w1 w2 w3 f1 f2 f3 fb1 fb2 fb3 g dt x1 x2 x3 v1 v2 v3 a1 a2 a3 yawr pitchr rollr : ℝ) : ℝ :=
  rot3 (qw oriw orix oriy oriz coriw corix coriy coriz) (qx oriw orix oriy oriz coriw corix coriy coriz) (qy oriw orix oriy oriz coriw corix coriy coriz) (qz oriw orix oriy oriz coriw corix coriy coriz) (f1 - fb1) (f2 - fb2) (f3 - fb3) / n2 oriw orix oriy oriz coriw corix coriy coriz + (-g)

/-- predicted global acceleration, component 1 -/
theorem acceleration1 (oriw orix oriy oriz coriw corix coriy coriz w1 w2 w3 f1 f2 f3 fb1 fb2 fb3 g dt x1 x2 x3 v1 v2 v3 a1 a2 a3 yawr pitchr rollr : ℝ) (hn : n2 oriw orix oriy oriz coriw corix coriy coriz ≠ 0) :
    acc1 oriw orix oriy oriz coriw corix coriy coriz w1 w2 w3 f1 f2 f3 fb1 fb2 fb3 g dt x1 x2 x3 v1 v2 v3 a1 a2 a3 yawr pitchr rollr = specAcc1 oriw orix oriy oriz coriw corix coriy coriz w1 w2 w3 f1 f2 f3 fb1 fb2 fb3 g dt x1 x2 x3 v1 v2 v3 a1 a2 a3 yawr pitchr rollr := by
  have h0 : den0 oriw orix oriy oriz coriw corix coriy coriz w1 w2 w3 f1 f2 f3 fb1 fb2 fb3 g dt x1 x2 x3 v1 v2 v3 a1 a2 a3 yawr pitchr rollr ≠ 0 := by
    rw [den0_eq]; exact mul_ne_zero (by norm_num) hn
  have h1 : den1 oriw orix oriy oriz coriw corix coriy coriz w1 w2 w3 f1 f2 f3 fb1 fb2 fb3 g dt x1 x2 x3 v1 v2 v3 a1 a2 a3 yawr pitchr rollr ≠ 0 := by
    rw [den1_eq]; exact mul_ne_zero (by norm_num) hn
  unfold den0 at h0
  unfold den1 at h1
  unfold n2 qw qx qy qz at hn
  unfold acc1 specAcc1 rot1 n2 qw qx qy qz
  field_simp
  ring

/-- predicted global acceleration, component 2 -/
theorem acceleration2 (oriw orix oriy oriz coriw corix coriy coriz w1 w2 w3 f1 f2 f3 fb1 fb2 fb3 g dt x1 x2 x3 v1 v2 v3 a1 a2 a3 yawr pitchr rollr : ℝ) (hn : n2 oriw orix oriy oriz coriw corix coriy coriz ≠ 0) :
    acc2 oriw orix oriy oriz coriw corix coriy coriz w1 w2 w3 f1 f2 f3 fb1 fb2 fb3 g dt x1 x2 x3 v1 v2 v3 a1 a2 a3 yawr pitchr rollr = specAcc2 oriw orix oriy oriz coriw corix coriy coriz w1 w2 w3 f1 f2 f3 fb1 fb2 fb3 g dt x1 x2 x3 v1 v2 v3 a1 a2 a3 yawr pitchr rollr := by
  have h0 : den0 oriw orix oriy oriz coriw corix coriy coriz w1 w2 w3 f1 f2 f3 fb1 fb2 fb3 g dt x1 x2 x3 v1 v2 v3 a1 a2 a3 yawr pitchr rollr ≠ 0 := by
    rw [den0_eq]; exact mul_ne_zero (by norm_num) hn
  have h1 : den1 oriw orix oriy oriz coriw corix coriy coriz w1 w2 w3 f1 f2 f3 fb1 fb2 fb3 g dt x1 x2 x3 v1 v2 v3 a1 a2 a3 yawr pitchr rollr ≠ 0 := by
    rw [den1_eq]; exact mul_ne_zero (by norm_num) hn
  unfold den0 at h0
  unfold den1 at h1
  unfold n2 qw qx qy qz at hn
  unfold acc2 specAcc2 rot2 n2 qw qx qy qz
  field_simp
  ring

/-- predicted global acceleration, component 3 -/
theorem acceleration3 (oriw orix oriy oriz coriw corix coriy coriz w1 w2 w3 f1 f2 f3 fb1 fb2 fb3 g dt x1 x2 x3 v1 v2 v3 a1 a2 a3 yawr pitchr rollr : ℝ) (hn : n2 oriw orix oriy oriz coriw corix coriy coriz ≠ 0) :
    acc3 oriw orix oriy oriz coriw corix coriy coriz w1 w2 w3 f1 f2 f3 fb1 fb2 fb3 g dt x1 x2 x3 v1 v2 v3 a1 a2 a3 yawr pitchr rollr = specAcc3 oriw orix oriy oriz coriw corix coriy coriz w1 w2 w3 f1 f2 f3 fb1 fb2 fb3 g dt x1 x2 x3 v1 v2 v3 a1 a2 a3 yawr pitchr rollr := by
  have h0 : den0 oriw orix oriy oriz coriw corix coriy coriz w1 w2 w3 f1 f2 f3 fb1 fb2 fb3 g dt x1 x2 x3 v1 v2 v3 a1 a2 a3 yawr pitchr rollr ≠ 0 := by
    rw [den0_eq]; exact mul_ne_zero (by norm_num) hn
  have h1 : den1 oriw orix oriy oriz coriw corix coriy coriz w1 w2 w3 f1 f2 f3 fb1 fb2 fb3 g dt x1 x2 x3 v1 v2 v3 a1 a2 a3 yawr pitchr rollr ≠ 0 := by
    rw [den1_eq]; exact mul_ne_zero (by norm_num) hn
  unfold den0 at h0
  unfold den1 at h1
  unfold n2 qw qx qy qz at hn
  unfold acc3 specAcc3 rot3 n2 qw qx qy qz
  field_simp
  ring

/-- predicted global angular rate (roll): the gyro vector rotated by the same orientation, i.e. the
b-component of `q ⊗ (0, ω) ⊗ q̄` -/
theorem rate_roll (oriw orix oriy oriz coriw corix coriy coriz w1 w2 w3 f1 f2 f3 fb1 fb2 fb3 g dt x1 x2 x3 v1 v2 v3 a1 a2 a3 yawr pitchr rollr : ℝ) :
    roll oriw orix oriy oriz coriw corix coriy coriz w1 w2 w3 f1 f2 f3 fb1 fb2 fb3 g dt x1 x2 x3 v1 v2 v3 a1 a2 a3 yawr pitchr rollr = rot1 (qw oriw orix oriy oriz coriw corix coriy coriz) (qx oriw orix oriy oriz coriw corix coriy coriz) (qy oriw orix oriy oriz coriw corix coriy coriz) (qz oriw orix oriy oriz coriw corix coriy coriz) w1 w2 w3 := by
  unfold roll rot1 qw qx qy qz
  ring

/-- predicted global angular rate (pitch): the gyro vector rotated by the same orientation, i.e. the
c-component of `q ⊗ (0, ω) ⊗ q̄` -/
theorem rate_pitch (oriw orix oriy oriz coriw corix coriy coriz w1 w2 w3 f1 f2 f3 fb1 fb2 fb3 g dt x1 x2 x3 v1 v2 v3 a1 a2 a3 yawr pitchr rollr : ℝ) :
    pitch oriw orix oriy oriz coriw corix coriy coriz w1 w2 w3 f1 f2 f3 fb1 fb2 fb3 g dt x1 x2 x3 v1 v2 v3 a1 a2 a3 yawr pitchr rollr = rot2 (qw oriw orix oriy oriz coriw corix coriy coriz) (qx oriw orix oriy oriz coriw corix coriy coriz) (qy oriw orix oriy oriz coriw corix coriy coriz) (qz oriw orix oriy oriz coriw corix coriy coriz) w1 w2 w3 := by
  unfold pitch rot2 qw qx qy qz
  ring

/-- predicted global angular rate (yaw): the gyro vector rotated by the same orientation, i.e. the
d-component of `q ⊗ (0, ω) ⊗ q̄` -/
theorem rate_yaw (oriw orix oriy oriz coriw corix coriy coriz w1 w2 w3 f1 f2 f3 fb1 fb2 fb3 g dt x1 x2 x3 v1 v2 v3 a1 a2 a3 yawr pitchr rollr : ℝ) :
    yaw oriw orix oriy oriz coriw corix coriy coriz w1 w2 w3 f1 f2 f3 fb1 fb2 fb3 g dt x1 x2 x3 v1 v2 v3 a1 a2 a3 yawr pitchr rollr = rot3 (qw oriw orix oriy oriz coriw corix coriy coriz) (qx oriw orix oriy oriz coriw corix coriy coriz) (qy oriw orix oriy oriz coriw corix coriy coriz) (qz oriw orix oriy oriz coriw corix coriy coriz) w1 w2 w3 := by
  unfold yaw rot3 qw qx qy qz
  ring

/-- velocity: the exact constant-acceleration integral over the step -/
theorem velocity1 (oriw orix oriy oriz coriw corix coriy coriz w1 w2 w3 f1 f2 f3 fb1 fb2 fb3 g dt x1 x2 x3 v1 v2 v3 a1 a2 a3 yawr pitchr rollr : ℝ) (hn : n2 oriw orix oriy oriz coriw corix coriy coriz ≠ 0) :
    vel1 oriw orix oriy oriz coriw corix coriy coriz w1 w2 w3 f1 f2 f3 fb1 fb2 fb3 g dt x1 x2 x3 v1 v2 v3 a1 a2 a3 yawr pitchr rollr = v1 + specAcc1 oriw orix oriy oriz coriw corix coriy coriz w1 w2 w3 f1 f2 f3 fb1 fb2 fb3 g dt x1 x2 x3 v1 v2 v3 a1 a2 a3 yawr pitchr rollr * dt := by
  have h0 : den0 oriw orix oriy oriz coriw corix coriy coriz w1 w2 w3 f1 f2 f3 fb1 fb2 fb3 g dt x1 x2 x3 v1 v2 v3 a1 a2 a3 yawr pitchr rollr ≠ 0 := by
    rw [den0_eq]; exact mul_ne_zero (by norm_num) hn
  have h1 : den1 oriw orix oriy oriz coriw corix coriy coriz w1 w2 w3 f1 f2 f3 fb1 fb2 fb3 g dt x1 x2 x3 v1 v2 v3 a1 a2 a3 yawr pitchr rollr ≠ 0 := by
    rw [den1_eq]; exact mul_ne_zero (by norm_num) hn
  unfold den0 at h0
  unfold den1 at h1
  unfold n2 qw qx qy qz at hn
  unfold vel1 specAcc1 rot1 n2 qw qx qy qz
  field_simp
  ring

/-- velocity: the exact constant-acceleration integral over the step -/
theorem velocity2 (oriw orix oriy oriz coriw corix coriy coriz w1 w2 w3 f1 f2 f3 fb1 fb2 fb3 g dt x1 x2 x3 v1 v2 v3 a1 a2 a3 yawr pitchr rollr : ℝ) (hn : n2 oriw orix oriy oriz coriw corix coriy coriz ≠ 0) :
    vel2 oriw orix oriy oriz coriw corix coriy coriz w1 w2 w3 f1 f2 f3 fb1 fb2 fb3 g dt x1 x2 x3 v1 v2 v3 a1 a2 a3 yawr pitchr rollr = v2 + specAcc2 oriw orix oriy oriz coriw corix coriy coriz w1 w2 w3 f1 f2 f3 fb1 fb2 fb3 g dt x1 x2 x3 v1 v2 v3 a1 a2 a3 yawr pitchr rollr * dt := by
  have h0 : den0 oriw orix oriy oriz coriw corix coriy coriz w1 w2 w3 f1 f2 f3 fb1 fb2 fb3 g dt x1 x2 x3 v1 v2 v3 a1 a2 a3 yawr pitchr rollr ≠ 0 := by
    rw [den0_eq]; exact mul_ne_zero (by norm_num) hn
  have h1 : den1 oriw orix oriy oriz coriw corix coriy coriz w1 w2 w3 f1 f2 f3 fb1 fb2 fb3 g dt x1 x2 x3 v1 v2 v3 a1 a2 a3 yawr pitchr rollr ≠ 0 := by
    rw [den1_eq]; exact mul_ne_zero (by norm_num) hn
  unfold den0 at h0
  unfold den1 at h1
  unfold n2 qw qx qy qz at hn
  unfold vel2 specAcc2 rot2 n2 qw qx qy qz
  field_simp
  ring

/-- velocity: the exact constant-acceleration integral over the step -/
theorem velocity3 (oriw orix oriy oriz coriw corix coriy coriz w1 w2 w3 f1 f2 f3 fb1 fb2 fb3 g dt x1 x2 x3 v1 v2 v3 a1 a2 a3 yawr pitchr rollr : ℝ) (hn : n2 oriw orix oriy oriz coriw corix coriy coriz ≠ 0) :
    vel3 oriw orix oriy oriz coriw corix coriy coriz w1 w2 w3 f1 f2 f3 fb1 fb2 fb3 g dt x1 x2 x3 v1 v2 v3 a1 a2 a3 yawr pitchr rollr = v3 + specAcc3 oriw orix oriy oriz coriw corix coriy coriz w1 w2 w3 f1 f2 f3 fb1 fb2 fb3 g dt x1 x2 x3 v1 v2 v3 a1 a2 a3 yawr pitchr rollr * dt := by
  have h0 : den0 oriw orix oriy oriz coriw corix coriy coriz w1 w2 w3 f1 f2 f3 fb1 fb2 fb3 g dt x1 x2 x3 v1 v2 v3 a1 a2 a3 yawr pitchr rollr ≠ 0 := by
    rw [den0_eq]; exact mul_ne_zero (by norm_num) hn
  have h1 : den1 oriw orix oriy oriz coriw corix coriy coriz w1 w2 w3 f1 f2 f3 fb1 fb2 fb3 g dt x1 x2 x3 v1 v2 v3 a1 a2 a3 yawr pitchr rollr ≠ 0 := by
    rw [den1_eq]; exact mul_ne_zero (by norm_num) hn
  unfold den0 at h0
  unfold den1 at h1
  unfold n2 qw qx qy qz at hn
  unfold vel3 specAcc3 rot3 n2 qw qx qy qz
  field_simp
  ring

set_option maxHeartbeats 2000000 in
/-- position: the exact constant-acceleration integral over the step -/
theorem position1 (oriw orix oriy oriz coriw corix coriy coriz w1 w2 w3 f1 f2 f3 fb1 fb2 fb3 g dt x1 x2 x3 v1 v2 v3 a1 a2 a3 yawr pitchr rollr : ℝ) (hn : n2 oriw orix oriy oriz coriw corix coriy coriz ≠ 0) :
    pos1 oriw orix oriy oriz coriw corix coriy coriz w1 w2 w3 f1 f2 f3 fb1 fb2 fb3 g dt x1 x2 x3 v1 v2 v3 a1 a2 a3 yawr pitchr rollr = x1 + v1 * dt + specAcc1 oriw orix oriy oriz coriw corix coriy coriz w1 w2 w3 f1 f2 f3 fb1 fb2 fb3 g dt x1 x2 x3 v1 v2 v3 a1 a2 a3 yawr pitchr rollr * dt ^ 2 / 2 := by
  have e1 := den1_eq oriw orix oriy oriz coriw corix coriy coriz w1 w2 w3 f1 f2 f3 fb1 fb2 fb3 g dt x1 x2 x3 v1 v2 v3 a1 a2 a3 yawr pitchr rollr
  have e0 := den0_eq oriw orix oriy oriz coriw corix coriy coriz w1 w2 w3 f1 f2 f3 fb1 fb2 fb3 g dt x1 x2 x3 v1 v2 v3 a1 a2 a3 yawr pitchr rollr
  unfold den1 at e1
  unfold den0 at e0
  have hn2 : (2 : ℝ) / 1 * n2 oriw orix oriy oriz coriw corix coriy coriz ≠ 0 := mul_ne_zero (by norm_num) hn
  have hn1 : (1 : ℝ) / 1 * n2 oriw orix oriy oriz coriw corix coriy coriz ≠ 0 := mul_ne_zero (by norm_num) hn
  unfold pos1 specAcc1
  rw [e1]
  generalize hN : n2 oriw orix oriy oriz coriw corix coriy coriz = N at *
  field_simp
  rw [← hN]
  unfold rot1 n2 qw qx qy qz
  ring

set_option maxHeartbeats 2000000 in
/-- position: the exact constant-acceleration integral over the step -/
theorem position2 (oriw orix oriy oriz coriw corix coriy coriz w1 w2 w3 f1 f2 f3 fb1 fb2 fb3 g dt x1 x2 x3 v1 v2 v3 a1 a2 a3 yawr pitchr rollr : ℝ) (hn : n2 oriw orix oriy oriz coriw corix coriy coriz ≠ 0) :
    pos2 oriw orix oriy oriz coriw corix coriy coriz w1 w2 w3 f1 f2 f3 fb1 fb2 fb3 g dt x1 x2 x3 v1 v2 v3 a1 a2 a3 yawr pitchr rollr = x2 + v2 * dt + specAcc2 oriw orix oriy oriz coriw corix coriy coriz w1 w2 w3 f1 f2 f3 fb1 fb2 fb3 g dt x1 x2 x3 v1 v2 v3 a1 a2 a3 yawr pitchr rollr * dt ^ 2 / 2 := by
  have e1 := den1_eq oriw orix oriy oriz coriw corix coriy coriz w1 w2 w3 f1 f2 f3 fb1 fb2 fb3 g dt x1 x2 x3 v1 v2 v3 a1 a2 a3 yawr pitchr rollr
  have e0 := den0_eq oriw orix oriy oriz coriw corix coriy coriz w1 w2 w3 f1 f2 f3 fb1 fb2 fb3 g dt x1 x2 x3 v1 v2 v3 a1 a2 a3 yawr pitchr rollr
  unfold den1 at e1
  unfold den0 at e0
  have hn2 : (2 : ℝ) / 1 * n2 oriw orix oriy oriz coriw corix coriy coriz ≠ 0 := mul_ne_zero (by norm_num) hn
  have hn1 : (1 : ℝ) / 1 * n2 oriw orix oriy oriz coriw corix coriy coriz ≠ 0 := mul_ne_zero (by norm_num) hn
  unfold pos2 specAcc2
  rw [e1]
  generalize hN : n2 oriw orix oriy oriz coriw corix coriy coriz = N at *
  field_simp
  rw [← hN]
  unfold rot2 n2 qw qx qy qz
  ring

set_option maxHeartbeats 2000000 in
/-- position: the exact constant-acceleration integral over the step -/
theorem position3 (oriw orix oriy oriz coriw corix coriy coriz w1 w2 w3 f1 f2 f3 fb1 fb2 fb3 g dt x1 x2 x3 v1 v2 v3 a1 a2 a3 yawr pitchr rollr : ℝ) (hn : n2 oriw orix oriy oriz coriw corix coriy coriz ≠ 0) :
    pos3 oriw orix oriy oriz coriw corix coriy coriz w1 w2 w3 f1 f2 f3 fb1 fb2 fb3 g dt x1 x2 x3 v1 v2 v3 a1 a2 a3 yawr pitchr rollr = x3 + v3 * dt + specAcc3 oriw orix oriy oriz coriw corix coriy coriz w1 w2 w3 f1 f2 f3 fb1 fb2 fb3 g dt x1 x2 x3 v1 v2 v3 a1 a2 a3 yawr pitchr rollr * dt ^ 2 / 2 := by
  have e1 := den1_eq oriw orix oriy oriz coriw corix coriy coriz w1 w2 w3 f1 f2 f3 fb1 fb2 fb3 g dt x1 x2 x3 v1 v2 v3 a1 a2 a3 yawr pitchr rollr
  have e0 := den0_eq oriw orix oriy oriz coriw corix coriy coriz w1 w2 w3 f1 f2 f3 fb1 fb2 fb3 g dt x1 x2 x3 v1 v2 v3 a1 a2 a3 yawr pitchr rollr
  unfold den1 at e1
  unfold den0 at e0
  have hn2 : (2 : ℝ) / 1 * n2 oriw orix oriy oriz coriw corix coriy coriz ≠ 0 := mul_ne_zero (by norm_num) hn
  have hn1 : (1 : ℝ) / 1 * n2 oriw orix oriy oriz coriw corix coriy coriz ≠ 0 := mul_ne_zero (by norm_num) hn
  unfold pos3 specAcc3
  rw [e1]
  generalize hN : n2 oriw orix oriy oriz coriw corix coriy coriz = N at *
  field_simp
  rw [← hN]
  unfold rot3 n2 qw qx qy qz
  ring

/-- the orientation advances by half the orientation times the gyro quaternion times the step -/
theorem orientation_oriw (oriw orix oriy oriz coriw corix coriy coriz w1 w2 w3 f1 f2 f3 fb1 fb2 fb3 g dt x1 x2 x3 v1 v2 v3 a1 a2 a3 yawr pitchr rollr : ℝ) :
    nOriw oriw orix oriy oriz coriw corix coriy coriz w1 w2 w3 f1 f2 f3 fb1 fb2 fb3 g dt x1 x2 x3 v1 v2 v3 a1 a2 a3 yawr pitchr rollr = oriw + (1 / 2) * hamW oriw orix oriy oriz 0 w1 w2 w3 * dt := by
  unfold nOriw hamW
  ring

/-- the orientation advances by half the orientation times the gyro quaternion times the step -/
theorem orientation_orix (oriw orix oriy oriz coriw corix coriy coriz w1 w2 w3 f1 f2 f3 fb1 fb2 fb3 g dt x1 x2 x3 v1 v2 v3 a1 a2 a3 yawr pitchr rollr : ℝ) :
    nOrix oriw orix oriy oriz coriw corix coriy coriz w1 w2 w3 f1 f2 f3 fb1 fb2 fb3 g dt x1 x2 x3 v1 v2 v3 a1 a2 a3 yawr pitchr rollr = orix + (1 / 2) * hamX oriw orix oriy oriz 0 w1 w2 w3 * dt := by
  unfold nOrix hamX
  ring

/-- the orientation advances by half the orientation times the gyro quaternion times the step -/
theorem orientation_oriy (oriw orix oriy oriz coriw corix coriy coriz w1 w2 w3 f1 f2 f3 fb1 fb2 fb3 g dt x1 x2 x3 v1 v2 v3 a1 a2 a3 yawr pitchr rollr : ℝ) :
    nOriy oriw orix oriy oriz coriw corix coriy coriz w1 w2 w3 f1 f2 f3 fb1 fb2 fb3 g dt x1 x2 x3 v1 v2 v3 a1 a2 a3 yawr pitchr rollr = oriy + (1 / 2) * hamY oriw orix oriy oriz 0 w1 w2 w3 * dt := by
  unfold nOriy hamY
  ring

/-- the orientation advances by half the orientation times the gyro quaternion times the step -/
theorem orientation_oriz (oriw orix oriy oriz coriw corix coriy coriz w1 w2 w3 f1 f2 f3 fb1 fb2 fb3 g dt x1 x2 x3 v1 v2 v3 a1 a2 a3 yawr pitchr rollr : ℝ) :
    nOriz oriw orix oriy oriz coriw corix coriy coriz w1 w2 w3 f1 f2 f3 fb1 fb2 fb3 g dt x1 x2 x3 v1 v2 v3 a1 a2 a3 yawr pitchr rollr = oriz + (1 / 2) * hamZ oriw orix oriy oriz 0 w1 w2 w3 * dt := by
  unfold nOriz hamZ
  ring

/-- `|q|²` of the composed orientation is the product of the two norms: the identities hold for every
non-zero orientation and calibration quaternion, not only unit ones -/
theorem n2_product (oriw orix oriy oriz coriw corix coriy coriz : ℝ) :
    n2 oriw orix oriy oriz coriw corix coriy coriz = (oriw ^ 2 + orix ^ 2 + oriy ^ 2 + oriz ^ 2) * (coriw ^ 2 + corix ^ 2 + coriy ^ 2 + coriz ^ 2) := by
  unfold n2 qw qx qy qz; ring

/-- non-vacuity: a non-unit orientation with a non-unit mounting calibration has `|q|² ≠ 0` -/
example : n2 2 0 0 1 1 1 0 0 ≠ 0 := by
  rw [n2_product]; norm_num

end FormakVerif.C19
