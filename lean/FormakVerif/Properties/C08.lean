/- C08 — common-subexpression elimination never changes a result; temporaries are single-assignment
and ordered. -/
import FormakVerif.Proofs.Program

namespace FormakVerif.C08
open FormakVerif
variable {α : Type}

/-- A block with temporaries returns exactly what its temporary-free (inlined) body returns,
whenever its temporaries evaluate. -/
theorem block_eq_inlined (S : Sem α) (p : Program) (vals : List α) (ρ' : Env α)
    (hlen : vals.length = p.args.length)
    (hpre : runPrefix S p.pre (p.args.zip vals) = some ρ') :
    p.exec S vals = p.inline.mapM (fun e => e.eval S (p.args.zip vals)) :=
  exec_eq_inline S p vals ρ' hlen hpre

/-- If a block returns a result at all, its inlined body returns the same result. -/
theorem result_eq_inlined (S : Sem α) (p : Program) (vals r : List α) (h : p.exec S vals = some r) :
    p.inline.mapM (fun e => e.eval S (p.args.zip vals)) = some r :=
  exec_some_inline S p vals r h

/-- **Single assignment, before first use, from inputs and earlier temporaries only** (`WellScoped`)
makes the block total over a total arithmetic, for every argument vector of the right length. -/
theorem wellScoped_total (S : Sem α) (hS : S.Total) (p : Program) (vals : List α)
    (hw : p.WellScoped = true) (hlen : vals.length = p.args.length) :
    ∃ r, p.exec S vals = some r ∧ p.inline.mapM (fun e => e.eval S (p.args.zip vals)) = some r :=
  wellScoped_exec_total S hS p vals hw hlen

/-- "Block `p` computes the statements `spec`" — what the per-instance checker establishes. -/
def ComputesSpec (S : Sem α) (p : Program) (spec : List Expr) : Prop :=
  ∀ vals : List α, vals.length = p.args.length →
    p.exec S vals = spec.mapM (fun e => e.eval S (p.args.zip vals))

/-- **CSE on / off.** Two blocks over the same arguments that both compute the same statements
(one compiled with CSE, one without) return identical results on every input. -/
theorem on_off (S : Sem α) (pOn pOff : Program) (spec : List Expr) (hargs : pOn.args = pOff.args)
    (hOn : ComputesSpec S pOn spec) (hOff : ComputesSpec S pOff spec) (vals : List α)
    (hlen : vals.length = pOn.args.length) : pOn.exec S vals = pOff.exec S vals := by
  rw [hOn vals hlen, hOff vals (hargs ▸ hlen), hargs]

/-- The CSE-off block (no temporaries, body = statements) computes the statements. -/
theorem off_computes (S : Sem α) (args : List Name) (spec : List Expr) :
    ComputesSpec S ⟨args, [], spec⟩ spec := by
  intro vals hlen
  exact exec_no_prefix S args spec vals hlen

/-! non-vacuity: nested shared temporaries, as `cse` + `simplify` emit them -/
def exOn : Program where
  args := ["x", "y"]
  pre := [("_t0", .add (.var "x") (.var "y")), ("_t1", .mul (.var "_t0") (.var "_t0"))]
  body := [.add (.var "_t1") (.var "x"), .div (.var "_t1") (.add (.num 1) (.pow (.var "_t0") 2))]
example : exOn.WellScoped = true := by decide +kernel
example : exOn.exec ratSem [1, 2] = some [10, 9/10] ∧
    exOn.inline.mapM (fun e => e.eval ratSem (exOn.args.zip [1, 2])) = some [10, 9/10] := by decide +kernel
-- a block that uses a temporary before it is assigned is not well scoped
example : (Program.mk ["x"] [("_t1", .var "_t0"), ("_t0", .var "x")] [.var "_t1"]).WellScoped = false := by
  decide +kernel

end FormakVerif.C08
