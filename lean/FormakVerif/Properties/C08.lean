/- C08 — common-subexpression elimination never changes a result; temporaries are single-assignment
and ordered. -/
import FormakVerif.Proofs.Program
import FormakVerif.Proofs.Poly

namespace FormakVerif.C08
open FormakVerif
variable {α : Type}

/-- A block with temporaries returns exactly what its temporary-free (inlined) body returns,
whenever its temporaries evaluate. -/
theorem block_eq_inlined (S : Sem α) (p : Program) (vals : List α) (ρ' : Env α)
    (hlen : vals.length = p.args.length)
    (hpre : runPrefix S p.pre (p.args.zip vals) = some ρ') :
    p.exec S vals = p.inline.mapM (fun e => e.eval S (p.args.zip vals)) :=
  exec_eq_inline S p vals ρ' hlen hpre

/-- If a block returns a result at all, its inlined body returns the same result. -/
theorem result_eq_inlined (S : Sem α) (p : Program) (vals r : List α) (h : p.exec S vals = some r) :
    p.inline.mapM (fun e => e.eval S (p.args.zip vals)) = some r :=
  exec_some_inline S p vals r h

/-- **Single assignment, before first use, from inputs and earlier temporaries only** (`WellScoped`)
makes the block total over a total arithmetic, for every argument vector of the right length. -/
theorem wellScoped_total (S : Sem α) (hS : S.Total) (p : Program) (vals : List α)
    (hw : p.WellScoped = true) (hlen : vals.length = p.args.length) :
    ∃ r, p.exec S vals = some r ∧ p.inline.mapM (fun e => e.eval S (p.args.zip vals)) = some r :=
  wellScoped_exec_total S hS p vals hw hlen

/-- "Block `p` computes the statements `spec`" — what the per-instance checker establishes. -/
def ComputesSpec (S : Sem α) (p : Program) (spec : List Expr) : Prop :=
  ∀ vals : List α, vals.length = p.args.length →
    p.exec S vals = spec.mapM (fun e => e.eval S (p.args.zip vals))

/-- **CSE on / off.** Two blocks over the same arguments that both compute the same statements
(one compiled with CSE, one without) return identical results on every input. -/
theorem on_off (S : Sem α) (pOn pOff : Program) (spec : List Expr) (hargs : pOn.args = pOff.args)
    (hOn : ComputesSpec S pOn spec) (hOff : ComputesSpec S pOff spec) (vals : List α)
    (hlen : vals.length = pOn.args.length) : pOn.exec S vals = pOff.exec S vals := by
  rw [hOn vals hlen, hOff vals (hargs ▸ hlen), hargs]

/-- The CSE-off block (no temporaries, body = statements) computes the statements. -/
theorem off_computes (S : Sem α) (args : List Name) (spec : List Expr) :
    ComputesSpec S ⟨args, [], spec⟩ spec := by
  intro vals hlen
  exact exec_no_prefix S args spec vals hlen

/-- **The per-block check is a verified checker** (rational fragment): when `checkProgramSym spec p`
returns `true` — it is run on every post-CSE block the current tree produces, Python and C++ — the
block is well scoped, has the specified number of outputs, and every inlined output equals the
specified expression as a real function wherever both are defined. -/
theorem symbolic_check_sound (spec : List Expr) (p : Program) (h : checkProgramSym spec p = true) :
    p.WellScoped = true ∧ p.inline.length = spec.length ∧
    ∀ (i : Nat) (h1 : i < p.inline.length) (h2 : i < spec.length) (ρ : Name → ℝ),
      DefinedR ρ (p.inline[i]) → DefinedR ρ (spec[i]) → evalR ρ (p.inline[i]) = evalR ρ (spec[i]) :=
  checkProgramSym_sound spec p h

/-- the size-guarded function the driver actually executes answers `some true` only when the verified
checker does -/
theorem driver_check_sound (limit : Nat) (spec : List Expr) (p : Program)
    (h : checkProgramSymB limit spec p = some true) :
    p.WellScoped = true ∧ p.inline.length = spec.length ∧
    ∀ (i : Nat) (h1 : i < p.inline.length) (h2 : i < spec.length) (ρ : Name → ℝ),
      DefinedR ρ (p.inline[i]) → DefinedR ρ (spec[i]) → evalR ρ (p.inline[i]) = evalR ρ (spec[i]) :=
  checkProgramSym_sound spec p (checkProgramSymB_true limit spec p h)

/-- the equality test underneath: same canonical cross-multiplied polynomials ⇒ same value -/
theorem equality_check_sound (ρ : Name → ℝ) (e₁ e₂ : Expr) (h : fracEq e₁ e₂ = true)
    (h₁ : DefinedR ρ e₁) (h₂ : DefinedR ρ e₂) : evalR ρ e₁ = evalR ρ e₂ :=
  fracEq_sound ρ e₁ e₂ h h₁ h₂

/-! non-vacuity: nested shared temporaries, as `cse` + `simplify` emit them -/
def exOn : Program where
  args := ["x", "y"]
  pre := [("_t0", .add (.var "x") (.var "y")), ("_t1", .mul (.var "_t0") (.var "_t0"))]
  body := [.add (.var "_t1") (.var "x"), .div (.var "_t1") (.add (.num 1) (.pow (.var "_t0") 2))]
example : exOn.WellScoped = true := by decide +kernel
-- (`checkProgramSym … = true` is not shown by `decide`: its canonical form uses merge sort and string keys, which do
-- not reduce in the kernel; that the hypothesis of `symbolic_check_sound` is met is observed on every run, where the
-- driver returns `true` for hundreds of real blocks)
example : exOn.exec ratSem [1, 2] = some [10, 9/10] ∧
    exOn.inline.mapM (fun e => e.eval ratSem (exOn.args.zip [1, 2])) = some [10, 9/10] := by decide +kernel
-- a block that uses a temporary before it is assigned is not well scoped
example : (Program.mk ["x"] [("_t1", .var "_t0"), ("_t0", .var "x")] [.var "_t1"]).WellScoped = false := by
  decide +kernel

end FormakVerif.C08
