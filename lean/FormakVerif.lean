import FormakVerif.Model.Names
import FormakVerif.Model.Expr
import FormakVerif.Model.PyModel
import FormakVerif.Model.Runtime
import FormakVerif.Model.Ekf
import FormakVerif.Model.Validate
import FormakVerif.Model.Sklearn
import FormakVerif.Model.Workflow
